"""C20 -- correlated-k reduces to cross-sections for a degenerate k-distribution; Jensen bound in general.

Monitors
  * paired runs of the REAL forward models on the same numbers: cross-section pickles + opacity_method unset
    versus k-table pickles (kcoeff[..., g] = xsec[...] for every g, random weights summing to one) +
    GlobalCache()['opacity_method'] = 'ktables'; both files are found by discovery, the chemistry decides the
    active molecules from the respective cache.  TransmissionModel and EmissionModel.
  * tap (Python wrapper replacing the module-global numba dispatcher) on
    taurex.contributions.absorption.contribute_ktau: inputs and the optical-depth increment of every call
    -> T = sum_g w_g exp(-tau_g) (equality with an independent numpy evaluation), T in [0,1], Jensen bound.
  * tap on taurex.model.emission.contribute_ktau_emission: returned per-point optical depths against the same
    independent evaluation.
  * tap on Contribution.contribute / AbsorptionContribution.contribute in the cross-section emission run:
    the optical depths that decide the cross-section path's tau>=10 clamp are OBSERVED (the k-table path has no
    clamp, so the licensed difference is computed from what was observed, not assumed).
  * all kernels run under NUMBA_BOUNDSCHECK=1.
"""
import math
import os
import shutil

import numpy as np

from vmon import faults
from vmon import refmodel as R
from vmon import taps, world

PROPERTY = 'C20'
RULE = ('synthetic worlds (planet, star, 2..30 layers, 2-10 pressure decades, every temperature/gas profile kind, '
        '1-3 active molecules on a common or on per-molecule wavenumber grids, tables of four magnitude classes, '
        'linear/exp interpolation, optionally Rayleigh/CIA before or behind the absorption) written as cross-section '
        'pickles and as k-table pickles with 1..20 quadrature points and Dirichlet / Gauss-Legendre / uniform / '
        'one-hot-like weights; degenerate workload: k identical across points; jensen workload: k spread over up to '
        '3 decades across points.  A case is non-trivial when both members of a pair returned a spectrum; distinct = '
        'distinct (family, nlayers, ngauss, magnitude, interpolation, T kind, planet, weights) tuples')
ASSUMPTIONS = [
    'all k-tables of one world share the number of quadrature points (the contribution takes one weight vector, '
    'from the first active molecule); in the degenerate workload the molecules may carry different weight vectors',
    'the cross-section emission integral drops exp(-tau/mu) terms once min_wn(tau) >= 10 (its documented clamp); '
    'the k-table integral does not; the comparison licenses exactly the dropped terms, computed from the optical '
    'depths observed in the cross-section run',
    'the end-to-end Jensen consequence (depth with k <= depth with the weight-averaged coefficient) is judged for '
    'linear (T,P) interpolation only, where averaging over g commutes with interpolation',
]
_Q = {'degenerate': 28, 'jensen': 18, 'sequence': 8}
_T = {'degenerate': 700, 'jensen': 400, 'sequence': 150}
BUDGET = {
    'quick': [dict(name='boundscheck', env={'NUMBA_BOUNDSCHECK': '1'}, shards=8, cases=_Q)],
    'thorough': [dict(name='boundscheck', env={'NUMBA_BOUNDSCHECK': '1'}, shards=16, cases=_T)],
}
M_TR = 'transmission:degenerate-k==xsec'
M_TRT = 'transmission:degenerate-k-transmittance==xsec'
M_EM = 'emission:degenerate-k==xsec'
M_EMCF = 'emission:degenerate-k==xsec|given-deltaz'
M_WEXP = 'ktau:T==sum_g(w_g*exp(-tau_g))'
M_RANGE = 'ktau:T-in-[0,1]'
M_JENSEN = 'ktau:T>=exp(-sum_g(w_g*tau_g))'
M_EMTAU = 'ktau-emission:per-point-tau'
M_JDEPTH = 'jensen:depth(k)<=depth(mean-k)'
M_EMK = 'emission:k-spectrum==sum_g(w_g*I_g)'
M_SEQ_TR = 'sequence:transmission:degenerate-k==xsec'
M_SEQ_EM = 'sequence:emission:degenerate-k==xsec'
M_PARTS = 'transmission:parts:degenerate-k==xsec'
REQUIRED = dict(monitors=[M_TR, M_TRT, M_EM, M_EMCF, M_WEXP, M_RANGE, M_JENSEN, M_EMTAU, M_JDEPTH, M_EMK, M_SEQ_TR, M_SEQ_EM, M_PARTS],
                classes=['parts:molecule-of-several', 'ktable-container:hdf5', 'ktable-container:pickle', 'sequence:pressure-moved-by:array-refilled-in-place', 'sequence:pressure-moved-by:fitting-parameters', 'sequence:add:Rayleigh', 'sequence:set', 'sequence:rebuild', 'sequence:fault', 'sequence:fault-fired', 'sequence:interpolation-mode-switched', 'grid:thousands-of-points', 'sequence:dozens-of-pressure-moves-earlier-ranges-again', 'family:transmission', 'family:emission', 'ngauss:1', 'ngauss:2-4', 'ngauss:5+',
                         'weights:dirichlet', 'weights:gauss-legendre', 'weights:uniform',
                         'magnitude:transparent', 'magnitude:thin', 'magnitude:mixed', 'magnitude:saturating',
                         'molecules:1', 'molecules:2+', 'interp:linear', 'interp:exp', 'k:degenerate',
                         'k:non-degenerate', 'kernel:tau_g-spread>1', 'extra:Rayleigh', 'extra:CIA',
                         'path:new', 'path:old', 'order:absorption-last', 'grid:common',
                         'grid:per-molecule'])
# Tolerances.  Degenerate k: tau_k = -log(sum_g w_g e^-tau) = tau - log(sum w) with |sum w - 1| <= ng*eps, i.e. an
# ABSOLUTE error of ng*eps in the optical depth and a relative error of ~ng*eps in each transmittance; the spectra are
# sums of positive terms of such transmittances, so 1e-10 relative leaves five orders of magnitude of head room
# (the observed maximum is reported in the evidence).
TOL = 1e-10
EPS = float(np.finfo(float).eps)

_state = {'ktau': None, 'kem_path': None, 'xs_em': None}


def classify(f):
    feat = f.get('features') or {}
    if f.get('monitor') == M_EM and feat.get('family') == 'emission' and feat.get('dz_top_differs') is True \
            and feat.get('agrees_given_deltaz') is True:
        # necessary conditions of the mechanism: emission family in k-table mode, the top layer's thickness differs
        # from the one below it (compute_dz repeats the last-but-one), and the SAME run with compute_dz answering
        # the model's own deltaz agrees with the cross-section spectrum
        return 'C20/ktable-emission-dz'
    return None


# ------------------------------------------------------------------- taps
def _tau_g(sigma, density, path, startK, endK, density_offset, layer):
    """Independent evaluation of the per-point optical depths of one kernel call: [ngrid, ngauss]."""
    ks = np.arange(int(startK), int(endK))
    if ks.size == 0:
        return np.zeros(sigma.shape[1:])
    fac = np.asarray(path, dtype=float)[ks] * np.asarray(density, dtype=float)[ks + int(density_offset)]
    return np.einsum('kwg,k->wg', np.asarray(sigma, dtype=float)[ks + int(layer)], fac)


def setup(ctx):
    import taurex.contributions.absorption as A
    faults.install(ctx)
    import taurex.model.emission as E
    from taurex.contributions import Contribution, AbsorptionContribution, CIAContribution
    problems = R.self_test()
    if problems:
        ctx.check('refmodel-selftest', False, problems=problems)

    # --- contribute_ktau(startK,endK,density_offset,sigma,density,path,weights,tau,ngrid,layer,ngauss)
    def before_ktau(a, kw):
        tau, layer = a[7], a[9]
        ctx.event('tap:contribute_ktau')
        return np.array(tau[layer], dtype=float)

    def after_ktau(a, kw, res, exc, before):
        if exc is not None:
            return
        startK, endK, off, sigma, density, path, weights, tau, ngrid, layer, ngauss = a
        w = np.asarray(weights, dtype=float)
        ctx.check('ktau:shapes', sigma.ndim == 3 and sigma.shape[2] == len(w) == ngauss and sigma.shape[1] == ngrid,
                  sigma=list(sigma.shape), ngauss=int(ngauss), nweights=len(w), ngrid=int(ngrid))
        tg = _tau_g(sigma, density, path, startK, endK, off, layer)
        after = np.array(tau[layer], dtype=float)
        with np.errstate(over='ignore', invalid='ignore'):
            delta = after - before
            T_got = np.exp(-delta)
            T_ref = np.exp(-tg) @ w
            T_jen = np.exp(-(tg @ w))
        ng = len(w)
        # equality: the kernel's log/exp round trip costs a few ulp; a non-zero tau before the call costs eps*before
        ctx.close(M_WEXP, T_got, T_ref, 1e-11, atol=8 * EPS * (1.0 + float(np.max(np.abs(before)))), ngauss=ng,
                  layer=int(layer))
        # range: sum_g w_g <= 1 + ng*eps; the increment is observed as after-before (cancellation eps*|before|)
        ctx.check(M_RANGE, bool(np.all(np.isfinite(T_got)) and np.all(T_got >= 0.0)
                                and np.all(T_got <= 1.0 + 4 * (ng + 2) * EPS + 8 * EPS * float(np.max(np.abs(before))))),
                  Tmin=float(np.nanmin(T_got)) if T_got.size else None,
                  Tmax=float(np.nanmax(T_got)) if T_got.size else None, nan=bool(np.any(np.isnan(T_got))))
        # 1e-300: below the normal double range exp() flushes to zero (T_got = 0 against a denormal bound)
        ctx.check(M_JENSEN, bool(np.all(T_got >= T_jen * (1.0 - 1e-11) - 8 * EPS * float(np.max(np.abs(before)))
                                        - 1e-300)),
                  worst=float(np.min(T_got - T_jen)) if T_got.size else None, ngauss=ng)
        if tg.size and ng > 1:
            spread = float(np.max(tg.max(axis=1) - tg.min(axis=1)))
            if spread > 1.0:
                ctx.observe('kernel:tau_g-spread>1')
            if np.any((T_got - T_jen) > 1e-3):
                ctx.observe('kernel:jensen-gap>1e-3')
        rec = _state.get('ktau')
        if rec is not None:
            rec.append(float(np.min(after)) if after.size else 0.0)
    taps.tap_function(A, 'contribute_ktau', before_ktau, after_ktau)

    # --- contribute_ktau_emission(startK,endK,density_offset,sigma,density,path,weights,ngrid,layer,ngauss) -> tau_g
    def after_kem(a, kw, res, exc, token):
        if exc is not None:
            return
        startK, endK, off, sigma, density, path, weights, ngrid, layer, ngauss = a
        ctx.event('tap:contribute_ktau_emission')
        tg = _tau_g(sigma, density, path, startK, endK, off, layer)
        ctx.close(M_EMTAU, res, tg, 1e-12, atol=1e-300, start=int(startK), end=int(endK))
        _state['kem_path'] = np.array(path, dtype=float)
    taps.tap_function(E, 'contribute_ktau_emission', None, after_kem)

    # --- cross-section emission run: observe the optical depths that decide the clamp
    def after_contrib(self, a, kw, res, exc, token):
        rec = _state.get('xs_em')
        if rec is None or exc is not None:
            return
        start, end, tau = int(a[1]), int(a[2]), a[6]
        rec[(start, end)] = np.array(tau[0], dtype=float)
    for c in (Contribution, AbsorptionContribution, CIAContribution):
        taps.tap(c, 'contribute', None, after_contrib, outermost=True)


def teardown(ctx):
    taps.untap_all()
    faults.uninstall()


# ------------------------------------------------------------- generators
def draw_weights(rng, ng):
    kind = ['dirichlet', 'gauss-legendre', 'uniform', 'dirichlet'][rng.integers(0, 4)]
    if ng == 1:
        return np.array([1.0]), kind
    if kind == 'dirichlet':
        w = rng.dirichlet(np.full(ng, [0.3, 1.0, 10.0][rng.integers(0, 3)]))
        w = np.maximum(w, 1e-12)
    elif kind == 'gauss-legendre':
        w = np.polynomial.legendre.leggauss(ng)[1] / 2.0
    else:
        w = np.full(ng, 1.0 / ng)
    return w / w.sum(), kind


def make_case(rng, long=False, nlayers=None):
    for _ in range(50):
        if nlayers is not None:
            spec = world.random_world_spec(rng, nlayers=nlayers, common_grid=bool(rng.random() < 0.7), nwn=int(rng.integers(3, 10)),
                                           tkind=['isothermal', 'guillot'][rng.integers(0, 2)])
        elif long:
            # a spectral grid of thousands of points (never a round number), few layers, one molecule: blocked loops
            # over wavenumber have a last, partial block
            spec = world.random_world_spec(rng, nlayers=int(rng.choice([2, 3, 5])), n_active=1,
                                           nwn=int(10 ** rng.uniform(3.93, 4.2)) | 1)
        else:
            spec = world.random_world_spec(rng, nlayers=int(rng.choice([2, 3, 5, 7, 13, 30])),
                                           common_grid=bool(rng.random() < 0.7))
        grids = [t['wn'] for t in spec['tables'].values()]
        spec['common_grid'] = all(len(g) == len(grids[0]) and np.array_equal(g, grids[0]) for g in grids)
        extra = []
        if rng.random() < 0.3:
            extra.append('Rayleigh')
        if rng.random() < 0.25 and 'H2' in spec['fill_gases']:
            extra.append({'name': 'CIA', 'cia_pairs': ['H2-H2'] + (['H2-He'] if 'He' in spec['fill_gases'] else [])})
        # Absorption first, or last (then the k-table kernel adds onto a non-zero optical depth)
        spec['contributions'] = ['Absorption'] + extra if rng.random() < 0.6 else extra + ['Absorption']
        spec['cia_seed'] = int(rng.integers(0, 2 ** 31))
        spec['new_method'] = bool(rng.random() < 0.4)
        spec['em_ngauss'] = int(rng.integers(1, 7))
        ng = int([1, 2, 3, 4, 5, 8, 20][rng.integers(0, 4 if long else 7)])
        spec['ngauss'] = ng
        w, kind = draw_weights(rng, ng)
        spec['weights'] = {m: w for m in spec['tables']}
        spec['weights_kind'] = kind
        if rng.random() < 0.3:
            spec['ktable_container'] = ('hdf5', str(rng.choice(['bar', 'Pa', 'mbar', 'Ba', 'atm', 'kPa', 'hPa', 'Torr'])))
        if rng.random() < 0.25 and spec['nlayers'] >= 2:
            spec['pressure_route'] = 'array'       # layer pressures as the caller's own array
        if world.is_bound(spec):
            return spec
    raise RuntimeError('generator could not draw a bound atmosphere')


def write_world(ctx, spec, ktabs, xsecs=None):
    """Write the cross-section pickles and the k-table pickles of one world; returns (xsec_dir, ktable_dir, root)."""
    root = os.path.join(ctx.scratch, 'case-%d' % ctx.cases)
    shutil.rmtree(root, ignore_errors=True)
    xd, kd = os.path.join(root, 'xsec'), os.path.join(root, 'ktab')
    os.makedirs(xd)
    os.makedirs(kd)
    for m, t in spec['tables'].items():
        x = t['xsec'] if xsecs is None else xsecs[m]
        world.write_pickle_xsec(os.path.join(xd, m + '.pickle'), t['wn'], t['T'], t['P'], x)
        cont = spec.get('ktable_container', ('pickle', 'bar'))
        if cont[0] == 'hdf5':
            # the same numbers in the HDF5 container, pressure axis written in the unit the world drew
            from vmon import lib_c14
            lib_c14.write_ktable_hdf5(os.path.join(kd, m + '.h5'), t['wn'], t['T'], t['P'], ktabs[m], spec['weights'][m], cont[1])
        else:
            world.write_pickle_ktable(os.path.join(kd, m + '.pickle'), m, t['wn'], t['T'], t['P'], ktabs[m],
                                      spec['weights'][m])
    return xd, kd, root


def run(ctx, spec, family, mode, xd, kd, given_deltaz=False, steps=None, parts=False):
    """Configure the caches, build the model through the public API and run it.  mode: 'xsec' | 'ktables'."""
    from taurex.cache import OpacityCache
    from taurex.cache.ktablecache import KTableCache
    from taurex.exceptions import InvalidModelException
    import taurex.util.util as U
    g = world.reset_caches()
    OpacityCache().set_opacity_path(xd)
    KTableCache().set_ktable_path(kd)
    g['xsec_interpolation'] = spec['interpolation']
    if mode == 'ktables':
        g['opacity_method'] = 'ktables'
    pairs = [p for c in spec['contributions'] if not isinstance(c, str) for p in c.get('cia_pairs', [])]
    if pairs:
        wn = next(iter(spec['tables'].values()))['wn']
        world.install_cia(np.random.default_rng(spec['cia_seed']), pairs, wn, spec['magnitude'])
    kw = {'new_path_method': spec['new_method']} if family == 'transmission' else {'ngauss': spec['em_ngauss']}
    model = world.build_model(spec, family, **kw)        # chemistry reads the active molecules from the cache here
    world.add_contributions(model, spec)
    _state['ktau'] = [] if mode == 'ktables' else None
    _state['xs_em'] = {} if (mode == 'xsec' and family == 'emission') else None
    _state['kem_path'] = None
    orig = U.compute_dz
    try:
        model.build()
        if given_deltaz:
            # diagnostic counterfactual used ONLY to classify a mismatch: compute_dz answers the model's own deltaz
            U.compute_dz = lambda altitude: np.array(model.deltaz, dtype=float)
        wn, spectrum, tau, _ = model.model()
    except InvalidModelException as e:
        # licensed rejections of the atmospheres this generator draws: Guillot2010 (unphysical parameter sets) and
        # NPoint (InvalidTemperatureException: slope between two nodes above its limit)
        if model.temperature.__class__.__name__ not in ('Guillot2010', 'NPoint'):
            raise
        ctx.license(type(e).__name__)
        return None
    finally:
        U.compute_dz = orig
    out = {'wn': np.array(wn, dtype=float), 'spectrum': np.array(spectrum, dtype=float),
           'tau': np.array(tau, dtype=float), 'model': model, 'ktau_min': _state['ktau'], 'xs_em': _state['xs_em'],
           'active': sorted(model.chemistry.activeGases), 'kem_path': _state['kem_path']}
    if parts:
        # the per-contribution and per-component routes (what ``taurex -o`` stores under Contributions/ and ``-c/-C`` plot)
        out['parts'] = {}
        for cname, (absorp, tau_c, _) in model.model_contrib()[1].items():
            out['parts'][(cname, None)] = (np.array(absorp, dtype=float), np.array(tau_c, dtype=float))
        for cname, comps in model.model_full_contrib()[1].items():
            for name, absorp, tau_c, _ in comps:
                out['parts'][(cname, name)] = (np.array(absorp, dtype=float), np.array(tau_c, dtype=float))
    if steps:
        # the SAME model object goes on: contributions are added, parameters written, it is rebuilt, and after every
        # step it is evaluated again (both members of a pair follow the same steps)
        from taurex.contributions import RayleighContribution, SimpleCloudsContribution
        out['seq'] = []
        first_licence = clamp_licence(out, spec) if (mode == 'xsec' and family == 'emission') else None
        out['licence'] = first_licence
        for st in steps:
            if st['op'] == 'add':
                model.add_contribution(RayleighContribution() if st['what'] == 'Rayleigh'
                                       else SimpleCloudsContribution(clouds_pressure=st['pressure']))
            elif st['op'] == 'set':
                model[st['name']] = float(model[st['name']]) * st['factor']
            elif st['op'] == 'pressure':
                # the pressure range moves: through the fitting parameters, or -- array route -- by refilling the
                # caller's own array of layer pressures in place
                how = world.move_pressure_range(model, spec['pmax'] * st['fmax'], spec['pmin'] * st['fmin'])
                ctx.observe('sequence:pressure-moved-by:' + how)
            elif st['op'] == 'interpolation':
                # the documented global option is changed while the model lives: both caches are emptied and the tables
                # are read again from their files, cross-sections and k-tables alike, in the new mode
                cur = g['xsec_interpolation']
                OpacityCache().set_interpolation('linear' if cur == 'exp' else 'exp')
                ctx.observe('sequence:interpolation-mode-switched')
            elif st['op'] == 'rebuild':
                model.build()
            elif st['op'] == 'fault':
                # a rejected evaluation (injected InvalidModelException at the site the workload drew), then on
                faults.arm(st['site'], k=st['k'])
                try:
                    model.model()
                except InvalidModelException:
                    pass
                finally:
                    if faults.disarm():
                        ctx.observe('sequence:fault-fired')
            if mode == 'xsec' and family == 'emission':
                _state['xs_em'] = {}
            if mode == 'ktables':
                _state['ktau'] = []
            try:
                wn2, sp2, tau2, _ = model.model()
            except InvalidModelException as e:
                ctx.license(type(e).__name__)
                out['seq'].append(None)
                continue
            r = {'wn': np.array(wn2, dtype=float), 'spectrum': np.array(sp2, dtype=float), 'tau': np.array(tau2, dtype=float),
                 'model': model, 'xs_em': _state['xs_em'], 'ktau_min': _state['ktau']}
            if mode == 'xsec' and family == 'emission':
                r['licence'] = clamp_licence(r, spec)
            out['seq'].append(r)
    _state['ktau'] = None
    _state['xs_em'] = None
    return out


def clamp_licence(res, spec):
    """What the cross-section emission path dropped through its clamp, and the rounding licence.

    For layer l the cross-section path replaces exp(-D_l/mu) by 0 when not min_wn D_l < 10 and exp(-L_l/mu) by 0 when
    not min_wn L_l < 10 (D_l: depth from the bottom of layer l to space, L_l: from its top).  D_l and L_l are the very
    arrays the tapped contribute() calls left behind (D = d + L is the code's own addition), so the decision is the
    code's own.  Returns (add[wn], allow[wn], fired): `xsec spectrum + add` is the un-clamped cross-section integral
    the k-table path (which has no clamp) has to reproduce; allow is the rounding licence.
    """
    model, rec = res['model'], res['xs_em']
    n, wn = int(model.nLayers), res['wn']
    T = np.array(model.temperatureProfile, dtype=float)
    mus, ws = R.gauss_legendre_unit(spec['em_ngauss'])
    sed = np.array(model.star.spectralEmissionDensity, dtype=float)
    scale = (float(model.planet.fullRadius) / float(model.star.radius)) ** 2 / sed
    # rounding licence: with sum_g w_g = 1 +- ng*eps every exp(-tau/mu) term of the k-table integral carries a relative
    # error <= (ng+2)*eps, i.e. an ABSOLUTE error (ng+2)*eps*B_l in I(mu); the integral B_l*(e^-L - e^-D) cancels for
    # thin layers, so where a hot thin layer sits above a cold one this absolute error is not small relative to the
    # flux.  2*pi*sum_q w_q mu_q = pi.  Two terms per layer plus the surface term.
    ng = int(spec['ngauss'])
    Bsum = R.planck_taurex_units(wn, T[0]) / math.pi
    for l in range(n):
        Bsum = Bsum + 2.0 * R.planck_taurex_units(wn, T[l]) / math.pi
    allow = 4.0 * (ng + 4) * EPS * math.pi * Bsum
    add = np.zeros(len(wn))
    fired = 0
    for l in range(n):
        L = rec.get((l + 1, n))
        d = rec.get((l, l + 1))
        if L is None or d is None:
            return None, None, 0
        D = d + L
        B = R.planck_taurex_units(wn, T[l]) / math.pi
        for arr, sign in ((L, +1.0), (D, -1.0)):
            if not (arr.min() < 10.0):
                fired += 1
                for mu, w in zip(mus, ws):
                    add += sign * 2.0 * math.pi * w * mu * B * np.exp(-arr / mu)
    return add * scale, allow * scale, fired


def emission_reference(ctx, res, spec):
    """Non-degenerate k, Absorption alone: the eclipse spectrum is the weight-averaged spectrum of the ngauss
    monochromatic problems, F = sum_g w_g F_g, F_g from the independent layered integral (refmodel) with the optical
    depths sigma[l,:,g]*rho[l]*dz[l].  sigma (prepared by the contribution), rho and the layer thicknesses the kernel
    was handed are taken as observed inputs (the thicknesses themselves are judged by the degenerate workload)."""
    model = res['model']
    absn = model.contribution_list[0]
    sigma = np.array(absn.sigma_xsec, dtype=float)                 # [layer, wn, g]
    w = np.array(absn.weights, dtype=float)
    dz = res.get('kem_path')
    rho = np.array(model.densityProfile, dtype=float)
    T = np.array(model.temperatureProfile, dtype=float)
    wn = res['wn']
    if not ctx.check('emission-kernel-path-observed', dz is not None and dz.shape == rho.shape):
        return
    F = np.zeros(len(wn))
    with np.errstate(over='ignore', under='ignore'):
        for g in range(len(w)):
            Fg, _ = R.emission_flux(sigma[:, :, g] * (rho * dz)[:, None], T, wn, spec['em_ngauss'])
            F += w[g] * Fg
    sed = np.array(model.star.spectralEmissionDensity, dtype=float)
    scale = (float(model.planet.fullRadius) / float(model.star.radius)) ** 2 / sed
    Bsum = R.planck_taurex_units(wn, T[0]) / math.pi
    for l in range(len(T)):
        Bsum = Bsum + 2.0 * R.planck_taurex_units(wn, T[l]) / math.pi
    # same rounding licence as in clamp_allowance (absolute error eps*B_l per exp term), both sides
    allow = 8.0 * (len(w) + 4) * EPS * math.pi * Bsum * scale
    _close_with_bound(ctx, M_EMK, res['spectrum'], F * scale, allow, ngauss=len(w), rtol=1e-9)


def observe_case(ctx, spec, degenerate):
    ng = spec['ngauss']
    ctx.observe('ngauss:1' if ng == 1 else ('ngauss:2-4' if ng <= 4 else 'ngauss:5+'),
                'weights:' + spec['weights_kind'], 'magnitude:' + spec['magnitude'],
                'molecules:1' if len(spec['tables']) == 1 else 'molecules:2+', 'interp:' + spec['interpolation'],
                'nlayers:%d' % spec['nlayers'], 'T:' + spec['temperature']['kind'],
                'k:degenerate' if degenerate else 'k:non-degenerate',
                'path:new' if spec['new_method'] else 'path:old')
    for c in spec['contributions']:
        if c != 'Absorption':
            ctx.observe('extra:' + (c if isinstance(c, str) else c['name']))
    cont = spec.get('ktable_container', ('pickle', 'bar'))
    ctx.observe('ktable-container:' + cont[0], 'ktable-pressure-unit:' + cont[1])
    ctx.observe('grid:common' if spec['common_grid'] else 'grid:per-molecule')
    if len(spec['contributions']) > 1 and spec['contributions'][-1] == 'Absorption':
        ctx.observe('order:absorption-last')
    ctx.feature(summary=world.spec_summary(spec), ngauss=ng, weights_kind=spec['weights_kind'],
                new_method=spec['new_method'], em_ngauss=spec['em_ngauss'])


def near_early_exit(res):
    """Transmission only: another contribution follows Absorption and some layer's optical depth after the k-table
    kernel lies within rounding of the tau>10 early-exit threshold -> the two modes may legitimately branch apart."""
    return any(abs(v - 10.0) < 1e-9 for v in (res['ktau_min'] or []))


# ----------------------------------------------------------------- workloads
def wl_degenerate(ctx, rng):
    long = ctx.case['index'] % 14 == 5
    spec = make_case(rng, long=long)
    if long:
        ctx.observe('grid:thousands-of-points')
    ng = spec['ngauss']
    if len(spec['tables']) > 1 and rng.random() < 0.3:
        # degenerate k: the result may not depend on ANY of the weight vectors, also when they differ per molecule
        spec['weights'] = {m: draw_weights(rng, ng)[0] for m in spec['tables']}
        ctx.observe('weights:per-molecule')
    observe_case(ctx, spec, True)
    ktabs = {m: np.repeat(t['xsec'][..., None], ng, axis=-1) for m, t in spec['tables'].items()}
    xd, kd, root = write_world(ctx, spec, ktabs)
    try:
        # ---- transmission
        ctx.feature(family='transmission')
        parts = rng.random() < 0.5
        xs = run(ctx, spec, 'transmission', 'xsec', xd, kd, parts=parts)
        kt = run(ctx, spec, 'transmission', 'ktables', xd, kd, parts=parts)
        if xs is None or kt is None:
            ctx.event('invalid-model-licensed')
            return
        ctx.check('active-molecules-same', xs['active'] == kt['active'] == sorted(spec['tables']),
                  xsec=xs['active'], ktables=kt['active'])
        if parts:
            # every stored part (a contribution alone; one molecule / pair of it alone) agrees as well
            ctx.check(M_PARTS + ':same-entries', sorted(map(str, xs['parts'])) == sorted(map(str, kt['parts'])),
                      xsec=sorted(map(str, xs['parts'])), ktables=sorted(map(str, kt['parts'])))
            for key in xs['parts']:
                if key in kt['parts']:
                    ctx.close(M_PARTS, kt['parts'][key][0], xs['parts'][key][0], TOL, part=str(key), ngauss=ng)
                    ctx.close(M_PARTS + ':transmittance', kt['parts'][key][1], xs['parts'][key][1], TOL, atol=64 * EPS,
                              part=str(key), ngauss=ng)
                    if key[1] is not None and len(spec['tables']) > 1 and key[0] == 'Absorption':
                        ctx.observe('parts:molecule-of-several')
        if spec['contributions'][0] == 'Absorption':     # behind an opaque contribution the early exit may skip it
            ctx.check('ktable-kernel-used', len(kt['ktau_min']) > 0)
        if spec['contributions'][0] == 'Absorption' and len(spec['contributions']) > 1 and near_early_exit(kt):
            ctx.event('domain-skip:early-exit-threshold')
        else:
            ctx.observe('family:transmission')
            ctx.close('native-grid-same', kt['wn'], xs['wn'], 0.0)
            ctx.close(M_TR, kt['spectrum'], xs['spectrum'], TOL, ngauss=ng)
            ctx.close(M_TRT, kt['tau'], xs['tau'], TOL, atol=64 * EPS, ngauss=ng)
        # ---- emission
        ctx.feature(family='emission')
        xs = run(ctx, spec, 'emission', 'xsec', xd, kd)
        kt = run(ctx, spec, 'emission', 'ktables', xd, kd)
        cf = run(ctx, spec, 'emission', 'ktables', xd, kd, given_deltaz=True)
        if xs is None or kt is None or cf is None:
            ctx.event('invalid-model-licensed')
            return
        ctx.observe('family:emission')
        add, allow, fired = clamp_licence(xs, spec)
        if not ctx.check('xsec-emission-depths-observed', allow is not None):
            return
        if fired:
            ctx.observe('emission:xsec-clamp-fired')
        want = xs['spectrum'] + add           # the un-clamped cross-section integral
        dz = np.array(xs['model'].deltaz, dtype=float)
        dz_top_differs = bool(abs(dz[-1] - dz[-2]) > 1e-12 * abs(dz[-1]))
        agrees = bool(cf['spectrum'].shape == want.shape
                      and np.all(np.abs(cf['spectrum'] - want) <= allow + TOL * np.abs(want)))
        ctx.feature(dz_top_differs=dz_top_differs, agrees_given_deltaz=agrees, clamp_terms=int(fired),
                    dz_top=[float(dz[-2]), float(dz[-1])])
        ctx.close('native-grid-same', kt['wn'], xs['wn'], 0.0)
        _close_with_bound(ctx, M_EMCF, cf['spectrum'], want, allow, ngauss=ng)
        _close_with_bound(ctx, M_EM, kt['spectrum'], want, allow, ngauss=ng, dz_top=[float(dz[-2]), float(dz[-1])])
        ctx.sig('deg', spec['nlayers'], ng, spec['magnitude'], spec['interpolation'], spec['temperature']['kind'],
                round(spec['planet_mass'], 6), round(spec['planet_radius'], 6), tuple(np.round(spec['weights'][
                    next(iter(spec['tables']))], 6)))
        ctx.sample({'world': world.spec_summary(spec), 'ngauss': ng, 'weights': spec['weights_kind'],
                    'eclipse_minmax': [float(xs['spectrum'].min()), float(xs['spectrum'].max())],
                    'max_rel_diff_emission_k_vs_xsec': float(np.max(np.abs(kt['spectrum'] - xs['spectrum'])
                                                                    / np.abs(xs['spectrum']))),
                    'max_rel_diff_given_deltaz': float(np.max(np.abs(cf['spectrum'] - xs['spectrum'])
                                                              / np.abs(xs['spectrum']))),
                    'xsec_clamp_terms': int(fired)})
    finally:
        shutil.rmtree(root, ignore_errors=True)


def _close_with_bound(ctx, monitor, got, want, allow, rtol=TOL, **witness):
    """ctx.close with a per-element absolute allowance (the runner's close takes a scalar atol)."""
    got, want = np.asarray(got, dtype=float), np.asarray(want, dtype=float)
    if got.shape != want.shape:
        return ctx.close(monitor, got, want, rtol, **witness)
    # judge |got-want| <= allow + rtol*|want| elementwise: the residual is rescaled so that the runner's scalar-rtol
    # comparison is exactly that test and the recorded "fraction of tolerance used" refers to the combined bound
    resid = got - want
    rel = rtol * np.abs(want)
    total = allow + rel
    with np.errstate(divide='ignore', invalid='ignore'):
        scaled = np.where(rel > 0, resid * rel / np.where(total > 0, total, 1.0),
                          np.where(np.abs(resid) <= allow, 0.0, resid))       # want == 0: inside the allowance or not
    k = int(np.argmax(np.abs(resid) - total)) if resid.size else 0
    return ctx.close(monitor, want + scaled, want, rtol, worst_got=float(got.flat[k]) if got.size else None,
                     worst_want=float(want.flat[k]) if got.size else None,
                     worst_allow=float(allow.flat[k]) if got.size else None, **witness)


def wl_jensen(ctx, rng):
    """Non-degenerate k: the tapped kernels are judged on every call; end to end the transit depth with k-tables
    cannot exceed the depth obtained from the weight-averaged coefficient (linear interpolation)."""
    spec = make_case(rng)
    if spec['ngauss'] == 1:
        spec['ngauss'] = int(rng.integers(2, 9))
        w, kind = draw_weights(rng, spec['ngauss'])
        spec['weights'] = {m: w for m in spec['tables']}
        spec['weights_kind'] = kind
    ng = spec['ngauss']
    if spec['magnitude'] == 'transparent':
        spec['magnitude'] = 'mixed'
        for m, t in spec['tables'].items():
            t['xsec'] = world.make_table(rng, 'mixed', len(t['P']), len(t['T']), t['wn'])[2]
    observe_case(ctx, spec, False)
    spread = float([0.1, 1.0, 3.0][rng.integers(0, 3)])
    ktabs, means = {}, {}
    for m, t in spec['tables'].items():
        z = np.sort(rng.uniform(-1, 1, ng))
        if rng.random() < 0.5:
            z = z[::-1]
        jitter = rng.normal(0, 0.1, t['xsec'].shape + (ng,))
        ktabs[m] = t['xsec'][..., None] * 10 ** (spread * z + jitter)
        means[m] = ktabs[m] @ spec['weights'][m]
    ctx.feature(spread=spread, family='jensen')
    xd, kd, root = write_world(ctx, spec, ktabs, xsecs=means)
    try:
        # the end-to-end pair runs Absorption alone: with another contribution behind it the tau>10 early exit of
        # path_integral is taken at different layers by the two members (tau_mean >= tau_k), which is licensed
        # behaviour of the integral (C01) and not what this property is about
        alone = dict(spec, contributions=['Absorption'])
        kt = run(ctx, alone, 'transmission', 'ktables', xd, kd)
        xs = run(ctx, alone, 'transmission', 'xsec', xd, kd)
        tr = run(ctx, spec, 'transmission', 'ktables', xd, kd) if len(spec['contributions']) > 1 else kt
        em = run(ctx, spec, 'emission', 'ktables', xd, kd)       # surface term -> contribute_ktau, layers -> emission kernel
        if tr is None:
            kt = None
        if kt is None or xs is None or em is None:
            ctx.event('invalid-model-licensed')
            return
        ctx.check('ktable-kernel-used', len(kt['ktau_min']) > 0 and len(em['ktau_min']) > 0)
        ema = run(ctx, alone, 'emission', 'ktables', xd, kd) if len(spec['contributions']) > 1 else em
        if ema is not None:
            emission_reference(ctx, ema, spec)
        ctx.check('spectrum-finite', bool(np.all(np.isfinite(kt['spectrum'])) and np.all(np.isfinite(em['spectrum']))))
        if spec['interpolation'] == 'linear':
            # T_k >= T_mean on every path  =>  depth_k <= depth_mean
            ctx.check(M_JDEPTH, bool(np.all(kt['spectrum'] <= xs['spectrum'] * (1 + 1e-12))),
                      worst=float(np.max(kt['spectrum'] - xs['spectrum'])), ngauss=ng, spread=spread)
            ctx.check('jensen:transmittance(k)>=transmittance(mean-k)',
                      bool(np.all(kt['tau'] >= xs['tau'] * (1 - 1e-11) - 64 * EPS)),
                      worst=float(np.min(kt['tau'] - xs['tau'])))
            if np.any(xs['spectrum'] - kt['spectrum'] > 1e-6 * xs['spectrum']):
                ctx.observe('jensen:strict-gap-observed')
        else:
            ctx.event('domain-skip:jensen-depth-needs-linear-interpolation')
        ctx.sig('jen', spec['nlayers'], ng, spec['magnitude'], spread, spec['interpolation'],
                round(spec['planet_mass'], 6), round(spec['planet_radius'], 6))
    finally:
        shutil.rmtree(root, ignore_errors=True)


def wl_sequence(ctx, rng):
    """Degenerate k again, but on model objects that live on: after the first evaluation contributions are added
    (without and with a rebuild), planet parameters are written and the model is evaluated again after every step, in
    cross-section mode and in k-table mode alike.  Every step's pair is judged by the degenerate equality."""
    long = ctx.case['index'] % 8 == 5
    spec = make_case(rng, nlayers=30 if long else None)
    ng = spec['ngauss']
    observe_case(ctx, spec, True)
    ktabs = {m: np.repeat(t['xsec'][..., None], ng, axis=-1) for m, t in spec['tables'].items()}
    have = [c if isinstance(c, str) else c['name'] for c in spec['contributions']]
    steps = []
    if long:
        # a long history on the k-table objects the cache holds: thirty layers, the pressure range moved two dozen times
        # (hundreds of distinct (T, P) requests per table), earlier ranges coming back at the end
        moves = [{'op': 'pressure', 'fmax': float(10 ** rng.uniform(-0.3, 0.3)), 'fmin': float(10 ** rng.uniform(-0.3, 0.3))}
                 for _ in range(int(rng.integers(20, 28)) if ctx.tier == 'quick' else int(rng.integers(40, 120)))]
        steps = moves + [dict(moves[int(k)]) for k in rng.integers(0, len(moves) - 2, 7)]     # (from anywhere in the history)
        ctx.observe('sequence:dozens-of-pressure-moves-earlier-ranges-again')
    no_zero = all(float(np.min(t['xsec'])) > 0.0 for t in spec['tables'].values())
    for _ in range(0 if long else int(rng.integers(2, 5))):
        k = rng.integers(0, 6)
        if k == 5:
            if no_zero:                       # (a table with exact zeros is outside the 'exp' formula's domain)
                steps.append({'op': 'interpolation'})
        elif k == 4:
            if spec['temperature']['kind'] == 'npoint':
                continue                      # N-point nodes are tied to the pressure range
            steps.append({'op': 'pressure', 'fmax': float(10 ** rng.uniform(-0.3, 0.3)), 'fmin': float(10 ** rng.uniform(-0.3, 0.3))})
        elif k == 0 and 'Rayleigh' not in have:
            steps.append({'op': 'add', 'what': 'Rayleigh'})
            have.append('Rayleigh')
        elif k == 1:
            steps.append({'op': 'set', 'name': 'planet_radius', 'factor': float(rng.uniform(0.8, 1.0))})
        elif k == 2:
            steps.append({'op': 'set', 'name': 'planet_mass', 'factor': float(rng.uniform(1.0, 1.5))})
        else:
            steps.append({'op': 'rebuild'})
        if rng.random() < 0.3:
            steps.append({'op': 'fault', 'site': faults.SITES[int(rng.integers(0, len(faults.SITES)))], 'k': int(rng.integers(1, 3))})
    if ctx.case['index'] % 4 == 1 and spec['temperature']['kind'] != 'npoint':
        # every fourth sequence: the layer pressures are the caller's own array and the pressure range moves at least once
        spec['pressure_route'] = 'array'
        if not any(st['op'] == 'pressure' for st in steps):
            steps.insert(int(rng.integers(0, len(steps) + 1)),
                         {'op': 'pressure', 'fmax': float(10 ** rng.uniform(-0.3, 0.3)), 'fmin': float(10 ** rng.uniform(-0.3, 0.3))})
    if not steps:
        steps.append({'op': 'rebuild'})
    if not any(st['op'] == 'add' for st in steps) and 'Rayleigh' not in have:
        steps.insert(int(rng.integers(0, len(steps) + 1)), {'op': 'add', 'what': 'Rayleigh'})
    ctx.feature(steps=[st['op'] + ':' + str(st.get('what', st.get('name', ''))) for st in steps])
    xd, kd, root = write_world(ctx, spec, ktabs)
    try:
        for family in ('transmission', 'emission'):
            ctx.feature(family=family)
            xs = run(ctx, spec, family, 'xsec', xd, kd, steps=steps)
            kt = run(ctx, spec, family, 'ktables', xd, kd, steps=steps)
            if xs is None or kt is None:
                ctx.event('invalid-model-licensed')
                return
            early = family == 'transmission' and len(have) > 1
            for i, (a, b) in enumerate(zip(xs['seq'], kt['seq'])):
                if a is None or b is None:
                    ctx.event('invalid-model-licensed')
                    continue
                st = steps[i]
                wit = dict(step=i, op=st['op'], what=st.get('what', st.get('name')), ngauss=ng,
                           steps=[x['op'] for x in steps[:i + 1]])
                if family == 'transmission':
                    if early and near_early_exit(b):
                        ctx.event('domain-skip:early-exit-threshold')
                        continue
                    ctx.close(M_SEQ_TR, b['spectrum'], a['spectrum'], TOL, **wit)
                else:
                    add, allow, fired = a['licence']
                    if allow is None:
                        ctx.check('xsec-emission-depths-observed', False, **wit)
                        continue
                    _close_with_bound(ctx, M_SEQ_EM, b['spectrum'], a['spectrum'] + add, allow, **wit)
                ctx.observe('sequence:' + st['op'] + (':' + st['what'] if 'what' in st else ''))
        ctx.sig('seq', spec['nlayers'], ng, spec['magnitude'], tuple(st['op'] for st in steps), round(spec['planet_mass'], 6))
    finally:
        shutil.rmtree(root, ignore_errors=True)


WORKLOADS = {'degenerate': wl_degenerate, 'jensen': wl_jensen, 'sequence': wl_sequence}

LEVEL_TEXT = ('Exploration by runtime monitoring: each generated world is written as cross-section pickles and as '
              'k-table pickles holding the same numbers at every quadrature point (random weights summing to one), '
              'loaded by discovery, and run through the real TransmissionModel and EmissionModel in both opacity '
              'modes; spectra (and path transmittances) must agree to 1e-10, with the cross-section path\'s '
              'tau>=10 clamp licensed from the optical depths observed by taps.  For non-degenerate random k every '
              'call of the numba kernels contribute_ktau / contribute_ktau_emission is tapped and judged against an '
              'independent numpy evaluation: T = sum_g w_g exp(-tau_g), T in [0,1], T >= exp(-sum_g w_g tau_g); end to '
              'end the k-table transit depth may not exceed the depth from the weight-averaged coefficient. All '
              'kernels run under NUMBA_BOUNDSCHECK=1. Held = held on the recorded executions.')
LEVEL_NOTE = ('Trusted: numpy einsum/exp for the per-point optical depths, refmodel Planck function and Gauss-Legendre '
              'nodes for the clamp licence. The emission path\'s in-line weighted sum over g is observed only through '
              'the spectrum (degenerate case) -- its non-degenerate value is not separately judged.')
TECHNIQUE = ('paired real-model runs on equivalent files + call taps on the numba k-table kernels (wrapper replacing the '
             'module-global dispatcher) + numba bounds-check sanitizer')
