"""C07 -- retrieval set-up depends only on current settings; updates touch only fitted parameters.

Monitors: a history log of every enable_fit / disable_fit / set_mode / set_boundary / set_factor_boundary /
set_prior / enable_derived / disable_derived / compile_params / update_model call on the real Optimizer
(taps record arguments and exceptions BEFORE/AFTER the call) and, after each compile / update, a snapshot of
fit_names, fit_values, fit_boundaries, fitting_priors, derived_names and of every parameter value of model and
observation.  Oracle: a small sequential reference model of the settings replayed over the same history.
"""
import math

import numpy as np

from vmon import taps, world

PROPERTY = 'C07'
RULE = ('random histories (length 1..25, 1..4 compiles interleaved, settings changed after the first compile) over 6..12 '
        'parameters of a real TransmissionModel (planet, temperature, chemistry, clouds) and a harness-defined '
        'observation with two fit parameters and a derived one; mixed linear/log modes, reversed bounds, factor '
        'bounds, user priors in the same and in the other space; distinct = distinct operation sequences')
ASSUMPTIONS = [
    'planet_distance and planet_sma are two documented names of one stored quantity; when one is fitted the other is '
    'exempt from the "untouched" check',
    'fit_boundaries of a parameter with a user-supplied prior are observed only (the statement does not say what the '
    'boundaries of e.g. a Gaussian prior are); names, values, order, priors and updates are judged for every parameter',
    'bounds are compared as (min, max) pairs: the order in which the two numbers were given is not part of the setting',
]
_Q = {'history': 200, 'unknown': 20}
_T = {'history': 2500, 'unknown': 120}
BUDGET = {
    'quick': [dict(name='main', env={}, shards=4, cases=_Q)],
    'thorough': [dict(name='main', env={}, shards=16, cases=_T)],
}
REQUIRED = dict(monitors=['fit-names-and-order', 'prior-implied-by-current-settings', 'value-in-space-of-name-and-prior',
                          'boundaries-implied-by-current-settings', 'derived-names', 'write-back-is-identity',
                          'update-sets-fitted-to-prior-transform', 'update-leaves-others-untouched',
                          'unknown-parameter-is-an-error', 'history-log-complete'],
                classes=['one-prior-object-in-two-roles', 'op:failed_compile', 'bounds-nudged-in-a-late-digit', 'parameter-declared-as-integer', 'update:same-container-edited-in-place', 'update:same-vector-after-direct-write', 'op:enable_fit', 'op:disable_fit', 'op:set_mode', 'op:set_boundary', 'op:set_factor_boundary',
                         'op:set_prior', 'op:enable_derived', 'op:disable_derived', 'op:compile_params',
                         'op:update_model', 'changed-after-first-compile', 'observation-parameter-fitted',
                         'user-prior-other-space', 'bounds-reversed'])
_log = []


def classify(f):
    return None


def setup(ctx):
    from taurex.optimizer import Optimizer

    def mk(name):
        def before(self, a, kw):
            ev = {'op': name, 'args': a, 'exc': None}
            _log.append(ev)
            ctx.event('call:' + name)
            return ev

        def after(self, a, kw, res, exc, ev):
            if exc is not None:
                ev['exc'] = type(exc).__name__
        return before, after
    for n in ('enable_fit', 'disable_fit', 'set_mode', 'set_boundary', 'set_factor_boundary', 'set_prior',
              'enable_derived', 'disable_derived', 'compile_params', 'update_model'):
        b, a = mk(n)
        taps.tap(Optimizer, n, b, a)


def teardown(ctx):
    taps.untap_all()


# ------------------------------------------------------------------ fixtures
def make_obs(rng):
    from taurex.data.spectrum.spectrum import BaseSpectrum
    from taurex.data.fittable import fitparam, derivedparam

    class ObsWithParams(BaseSpectrum):
        """The documented 'custom observation' route: a BaseSpectrum with its own fit parameters."""

        def __init__(self):
            super().__init__('ObsWithParams')
            self._offset = float(rng.uniform(0.5, 5.0))
            self._scale = float(10 ** rng.uniform(-3, 1))
            self._x = np.linspace(500.0, 2000.0, 6)

        def create_binner(self):
            from taurex.binning import NativeBinner
            return NativeBinner()

        @property
        def spectrum(self):
            return np.full(6, 1e-3) * self._scale + self._offset * 1e-6

        @property
        def wavenumberGrid(self):
            return self._x

        @property
        def errorBar(self):
            return np.full(6, 1e-5)

        @fitparam(param_name='obs_offset', param_latex='off', default_mode='linear', default_fit=False,
                  default_bounds=[0.1, 10.0])
        def offset(self):
            return self._offset

        @offset.setter
        def offset(self, v):
            self._offset = v

        @fitparam(param_name='obs_scale', param_latex='scl', default_mode='log', default_fit=False,
                  default_bounds=[1e-4, 100.0])
        def scale(self):
            return self._scale

        @scale.setter
        def scale(self, v):
            self._scale = v

        @derivedparam(param_name='obs_sum', param_latex='sum', compute=False)
        def osum(self):
            return self._offset + self._scale
    return ObsWithParams()


def make_model(rng):
    world.reset_caches()
    for _ in range(50):
        spec = world.random_world_spec(rng, nlayers=int(rng.choice([3, 5])), nwn=4, n_active=2,
                                       gas_kinds=['constant', 'twolayer', 'twopoint'], tkind=['isothermal', 'npoint', 'guillot'][rng.integers(0, 3)])
        spec['contributions'] = ['Absorption', {'name': 'SimpleClouds', 'clouds_pressure': 1e3}]
        if world.is_bound(spec):
            break
    world.reset_caches()
    world.install_opacities(spec)
    t = spec['temperature']
    if t['kind'] == 'npoint' and rng.random() < 0.5:
        # node lists typed as whole numbers (Python ints): what is written to a fitted node must come back as written
        if t['temperature_points'] and spec['pmin'] > 10:        # rounding must keep the nodes distinct and ordered
            t['integer_nodes'] = True
    m = world.build_model(spec, 'transmission')
    world.add_contributions(m, spec)
    m.build()
    return m, spec


class Ref:
    """Sequential reference model of the retrieval settings."""

    def __init__(self, model, obs):
        self.order = []
        self.p = {}
        self.d = {}
        self.dorder = []
        for src, tag in ((model.fittingParameters, 'model'), (obs.fittingParameters, 'obs')):
            for name, (n, latex, fget, fset, mode, fit, bounds) in src.items():
                self.order.append(name)
                self.p[name] = {'fit': bool(fit), 'mode': mode, 'bounds': tuple(bounds), 'prior': None, 'fget': fget,
                                'src': tag}
        for src, tag in ((model.derivedParameters, 'model'), (obs.derivedParameters, 'obs')):
            for name, (n, latex, fget, compute) in src.items():
                self.dorder.append(name)
                self.d[name] = {'compute': bool(compute)}

    def fitted(self):
        return [n for n in self.order if self.p[n]['fit']]

    def prior_space(self, n):
        pr = self.p[n]['prior']
        if pr is None:
            return self.p[n]['mode']
        return 'log' if type(pr).__name__.startswith('Log') else 'linear'

    def expected_prior(self, n):
        """('user', obj) or ('Uniform'|'LogUniform', (lo, hi) in the prior's space)."""
        s = self.p[n]
        if s['prior'] is not None:
            return 'user', s['prior']
        b = s['bounds']
        if s['mode'] == 'log':
            lb = (math.log10(b[0]), math.log10(b[1]))
            return 'LogUniform', (min(lb), max(lb))
        return 'Uniform', (min(b), max(b))


def all_values(model, obs):
    out = {}
    for src in (model.fittingParameters, obs.fittingParameters):
        for name, t in src.items():
            v = t[2]()
            out[name] = np.array(v, dtype=float, copy=True) if isinstance(v, (np.ndarray, list)) else v
    return out


def same(a, b):
    if isinstance(a, np.ndarray) or isinstance(b, np.ndarray):
        return np.array_equal(np.asarray(a), np.asarray(b))
    return a == b or (a != a and b != b)


# ------------------------------------------------------------------- oracle
def judge_compile(ctx, opt, ref, model, obs, history):
    from taurex.core.priors import Uniform, LogUniform, PriorMode
    fitted = ref.fitted()
    names = [('log_' + n) if ref.prior_space(n) == 'log' else n for n in fitted]
    ctx.check('fit-names-and-order', list(opt.fit_names) == names, got=list(opt.fit_names), want=names, history=history[-12:])
    if [p[0] for p in opt.fitting_parameters] != fitted or len(opt.fitting_priors) != len(fitted):
        ctx.check('fit-names-and-order', False, got=[p[0] for p in opt.fitting_parameters], want=fitted, history=history[-12:])
        return
    vals = opt.fit_values
    bnds = opt.fit_boundaries
    for i, n in enumerate(fitted):
        kind, exp = ref.expected_prior(n)
        pr = opt.fitting_priors[i]
        feat = dict(param=n, mode=ref.p[n]['mode'], bounds=ref.p[n]['bounds'], user_prior=kind == 'user',
                    history=history[-12:])
        if kind == 'user':
            ctx.check('prior-implied-by-current-settings', pr is exp, got=type(pr).__name__, **feat)
        else:
            ok = type(pr).__name__ == kind
            ctx.check('prior-implied-by-current-settings', ok, got=type(pr).__name__, want=kind, **feat)
            if ok:
                ctx.close('prior-implied-by-current-settings', pr.boundaries(), exp, 1e-12, atol=1e-12,
                          got_prior_bounds=pr.boundaries(), **feat)
        # the reported value is expressed in the space of its name and prior
        cur = ref.p[n]['fget']()
        want_v = math.log10(cur) if ref.prior_space(n) == 'log' else cur
        ctx.close('value-in-space-of-name-and-prior', vals[i], want_v, 1e-12, atol=1e-300, space=ref.prior_space(n), **feat)
        # consistency: the prior maps the reported value back to the current model value
        ctx.close('value-in-space-of-name-and-prior', pr.prior(vals[i]), cur, 1e-9, space=ref.prior_space(n), **feat)
        if kind != 'user':
            b = bnds[i]
            ctx.close('boundaries-implied-by-current-settings', (min(b), max(b)), exp, 1e-12, atol=1e-12, **feat)
        else:
            ctx.event('observed-only:boundaries-of-user-prior')
    dn = [n for n in ref.dorder if ref.d[n]['compute']]
    ctx.check('derived-names', list(opt.derived_names) == dn, got=list(opt.derived_names), want=dn, history=history[-12:])


ALIASES = [{'planet_distance', 'planet_sma'}]      # two documented names of one quantity (semi-major axis)


def restore(model, obs, values):
    for src in (model.fittingParameters, obs.fittingParameters):
        for name, t in src.items():
            if name in values and not same(t[2](), values[name]):
                t[3](values[name])


def judge_update(ctx, opt, ref, model, obs, theta, history, identity):
    before = all_values(model, obs)
    opt.update_model(list(theta))
    after = all_values(model, obs)
    fitted = ref.fitted()
    exempt = set()
    for grp in ALIASES:
        if grp & set(fitted):
            exempt |= grp
    for i, n in enumerate(fitted):
        pr = opt.fitting_priors[i]
        want = pr.prior(theta[i])
        if identity:
            ctx.close('write-back-is-identity', after[n], before[n], 1e-9, param=n, space=ref.prior_space(n),
                      mode=ref.p[n]['mode'], user_prior=ref.p[n]['prior'] is not None, history=history[-12:])
        else:
            ctx.close('update-sets-fitted-to-prior-transform', after[n], want, 1e-12, param=n, history=history[-12:])
    if identity and not all(np.allclose(np.asarray(after[n], dtype=float), np.asarray(before[n], dtype=float), rtol=1e-9, atol=0)
                            for n in fitted):
        restore(model, obs, before)     # keep one failed write-back from cascading into later steps
        after = all_values(model, obs)
    for n in before:
        if n not in fitted and n not in exempt:
            ctx.check('update-leaves-others-untouched', same(before[n], after[n]), param=n, before=before[n], after=after[n],
                      history=history[-12:])


# ---------------------------------------------------------------- workloads
def rnd_bounds(rng, value, positive):
    lo = value * 10 ** rng.uniform(-2, -0.05)
    hi = value * 10 ** rng.uniform(0.05, 2)
    return (float(lo), float(hi))


def wl_history(ctx, rng):
    from taurex.optimizer import Optimizer
    from taurex.core.priors import Uniform, LogUniform, Gaussian, LogGaussian
    del _log[:]
    model, spec = make_model(rng)
    obs = make_obs(rng)
    opt = Optimizer('vmon', observed=obs, model=model)
    ref = Ref(model, obs)
    # parameters we play with: positive floats (so that both spaces are valid)
    def _number(v):
        return isinstance(v, (int, float, np.integer, np.floating)) and not isinstance(v, (bool, np.bool_))
    pool = [n for n in ref.order if _number(ref.p[n]['fget']()) and ref.p[n]['fget']() > 0 and n != 'nlayers']
    if any(isinstance(ref.p[n]['fget'](), (int, np.integer)) for n in pool):
        ctx.observe('parameter-declared-as-integer')
    k = int(rng.integers(3, min(len(pool), 9) + 1))
    chosen = [pool[i] for i in rng.choice(len(pool), k, replace=False)]
    if rng.random() < 0.7:
        for n in ('obs_offset', 'obs_scale'):
            if n not in chosen:
                chosen.append(n)
    for grp in ALIASES:        # never drive two names of one quantity in the same history
        both = [n for n in chosen if n in grp]
        for n in both[1:]:
            chosen.remove(n)
    dpool = list(ref.dorder)
    length = int(rng.integers(1, 26))
    history = []
    compiled = 0
    mine = []      # my own record of what I asked for, compared with the tapped log at the end
    for step in range(length + 1):
        last = step == length
        op = 'compile_params' if last else str(rng.choice(
            ['enable_fit', 'enable_fit', 'disable_fit', 'set_mode', 'set_boundary', 'set_factor_boundary', 'set_prior',
             'enable_derived', 'disable_derived', 'compile_params', 'update_model', 'failed_compile']))
        if op == 'update_model' and compiled == 0:
            op = 'enable_fit'
        if op == 'failed_compile':
            # a compile that is rejected half way (log mode on a bound <= 0 is a ValueError), repaired afterwards: the
            # rejected compile must leave nothing behind that a later compile picks up
            cand = [q for q in chosen if ref.p[q]['fit'] and ref.p[q]['prior'] is None]
            if not cand:
                op = 'enable_fit'
            else:
                bad = cand[int(rng.integers(0, len(cand)))]
                others = [q for q in chosen if q != bad and ref.p[q]['fit'] and ref.p[q]['prior'] is None]
                if others and rng.random() < 0.7:
                    # another fitted parameter is changed as well before the rejected compile
                    o = others[int(rng.integers(0, len(others)))]
                    if rng.random() < 0.5 and min(ref.p[o]['bounds']) > 0:
                        m = 'linear' if ref.p[o]['mode'] == 'log' else 'log'
                        opt.set_mode(o, m)
                        mine.append('set_mode')
                        ref.p[o]['mode'] = m
                        history.append(('set_mode', o, m))
                    else:
                        b = rnd_bounds(rng, ref.p[o]['fget'](), True)
                        opt.set_boundary(o, list(b))
                        mine.append('set_boundary')
                        ref.p[o]['bounds'] = tuple(b)
                        history.append(('set_boundary', o, b))
                v = ref.p[bad]['fget']()
                bb = (float(-abs(v) * rng.uniform(0.0, 2.0)), float(abs(v) * rng.uniform(1.5, 5.0)))
                opt.set_boundary(bad, list(bb))
                mine.append('set_boundary')
                opt.set_mode(bad, 'log')
                mine.append('set_mode')
                history.append(('set_boundary', bad, bb))
                history.append(('set_mode', bad, 'log'))
                try:
                    mine.append('compile_params')
                    opt.compile_params()
                    raised = None
                except ValueError as e:
                    raised = e
                ctx.check('compile-rejects-log-of-nonpositive-bound', raised is not None, bounds=bb, param=bad)
                history.append(('compile_params', 'rejected'))
                ctx.observe('op:failed_compile')
                # the repair: positive bounds (the mode stays log)
                b = rnd_bounds(rng, v, True)
                opt.set_boundary(bad, list(b))
                mine.append('set_boundary')
                ref.p[bad]['bounds'] = tuple(b)
                ref.p[bad]['mode'] = 'log'
                history.append(('set_boundary', bad, b))
                continue
        ctx.observe('op:' + op)
        if compiled and op not in ('compile_params', 'update_model'):
            ctx.observe('changed-after-first-compile')
        n = chosen[int(rng.integers(0, len(chosen)))]
        if op == 'enable_fit':
            opt.enable_fit(n)
            ref.p[n]['fit'] = True
            history.append((op, n))
            if ref.p[n]['src'] == 'obs':
                ctx.observe('observation-parameter-fitted')
        elif op == 'disable_fit':
            opt.disable_fit(n)
            ref.p[n]['fit'] = False
            history.append((op, n))
        elif op == 'set_mode':
            m = ['linear', 'log', 'LOG', 'Linear'][rng.integers(0, 4)]
            if m.lower() == 'log' and min(ref.p[n]['bounds']) <= 0:
                # log space needs positive bounds (a documented precondition, not part of the property): give some first
                b = rnd_bounds(rng, ref.p[n]['fget'](), True)
                opt.set_boundary(n, list(b))
                mine.append('set_boundary')
                ref.p[n]['bounds'] = tuple(b)
                history.append(('set_boundary', n, b))
            opt.set_mode(n, m)
            ref.p[n]['mode'] = m.lower()
            history.append((op, n, m))
        elif op == 'set_boundary':
            b = rnd_bounds(rng, ref.p[n]['fget'](), True)
            if compiled and rng.random() < 0.3 and min(ref.p[n]['bounds']) > 0:
                # bounds refined in a late digit after a compile: the settings ARE different, however little
                old_b = ref.p[n]['bounds']
                k = int(rng.integers(0, 2))
                nb = list(old_b)
                nb[k] = float(nb[k] * (1.0 + float(rng.choice([-1, 1])) * 10 ** rng.uniform(-9, -5.3)))
                b = tuple(nb)
                ctx.observe('bounds-nudged-in-a-late-digit')
            if rng.random() < 0.3:
                b = (b[1], b[0])
                ctx.observe('bounds-reversed')
            opt.set_boundary(n, list(b))
            ref.p[n]['bounds'] = tuple(b)
            history.append((op, n, b))
        elif op == 'set_factor_boundary':
            f = (float(rng.uniform(0.1, 0.9)), float(rng.uniform(1.1, 10)))
            v = ref.p[n]['fget']()
            opt.set_factor_boundary(n, f)
            ref.p[n]['bounds'] = (f[0] * v, f[1] * v)
            history.append((op, n, f))
        elif op == 'set_prior':
            v = ref.p[n]['fget']()
            kind = rng.integers(0, 4)
            if kind == 0:
                pr = Uniform(bounds=rnd_bounds(rng, v, True))
            elif kind == 1:
                b = rnd_bounds(rng, v, True)
                pr = LogUniform(lin_bounds=b)
            elif kind == 2:
                pr = Gaussian(mean=v, std=abs(v) * 0.1)
            else:
                pr = LogGaussian(mean=math.log10(v), std=0.3)
            donors = [q for q in ref.fitted() if q != n and ref.p[q]['prior'] is None and q in chosen]
            names_now = [t[0] for t in opt.fitting_parameters] if compiled else []
            donors = [q for q in donors if q in names_now]
            if donors and rng.random() < 0.35:
                # ONE prior object in two roles: the object the last compile built as the DEFAULT prior of another
                # parameter is handed to set_prior for this one; that other parameter stays a default-prior parameter --
                # its bounds are written and everything is compiled again, and it has to follow its own settings
                q = donors[int(rng.integers(0, len(donors)))]
                pr = opt.fitting_priors[names_now.index(q)]
                kind = 1 if type(pr).__name__ == 'LogUniform' else 0
                opt.set_prior(n, pr)
                mine.append('set_prior')
                ref.p[n]['prior'] = pr
                history.append((op, n, type(pr).__name__ + ':the-default-prior-object-of-' + q))
                b = rnd_bounds(rng, ref.p[q]['fget'](), True)
                opt.set_boundary(q, list(b))
                mine.append('set_boundary')
                ref.p[q]['bounds'] = tuple(b)
                history.append(('set_boundary', q, b))
                opt.compile_params()
                mine.append('compile_params')
                compiled += 1
                history.append(('compile_params',))
                ctx.feature(history=history[-25:])
                judge_compile(ctx, opt, ref, model, obs, history)
                ctx.observe('one-prior-object-in-two-roles')
                continue
            opt.set_prior(n, pr)
            ref.p[n]['prior'] = pr
            sp = 'log' if kind in (1, 3) else 'linear'
            if sp != ref.p[n]['mode']:
                ctx.observe('user-prior-other-space')
            history.append((op, n, type(pr).__name__))
        elif op in ('enable_derived', 'disable_derived'):
            d = dpool[int(rng.integers(0, len(dpool)))]
            getattr(opt, op)(d)
            ref.d[d]['compute'] = op == 'enable_derived'
            history.append((op, d))
        elif op == 'compile_params':
            opt.compile_params()
            mine.append(op)
            compiled += 1
            history.append((op,))
            ctx.feature(history=history[-25:])
            judge_compile(ctx, opt, ref, model, obs, history)
            # writing the reported values back changes nothing
            if len(ref.fitted()) == len(opt.fitting_parameters):
                try:
                    vals = list(opt.fit_values)
                except ValueError as e:
                    ctx.check('value-in-space-of-name-and-prior', False, error=repr(e), history=history[-12:])
                    vals = None
                if vals is not None:
                    mine.append('update_model')
                    judge_update(ctx, opt, ref, model, obs, vals, history, identity=True)
            continue
        else:   # update_model with a fresh vector in the priors' spaces
            fitted_now = [p[0] for p in opt.fitting_parameters]
            theta = []
            for i, nm in enumerate(fitted_now):
                cur = opt.fitting_parameters[i][2]()
                sp = 'log' if type(opt.fitting_priors[i]).__name__.startswith('Log') else 'linear'
                x = cur * 10 ** rng.uniform(-0.3, 0.3)
                theta.append(math.log10(x) if sp == 'log' else x)
            history.append((op, len(theta)))
            # judge against the settings as they were at the LAST compile: rebuild a frozen view
            frozen = FrozenRef(ref, fitted_now)
            judge_update(ctx, opt, frozen, model, obs, theta, history, identity=False)
            mine_extra = 0
            if theta and rng.random() < 0.5:
                # (a) the SAME container is written again after being edited in place (what a sampler does with its cube)
                buf = np.array(theta, dtype=float) if rng.random() < 0.5 else list(theta)
                opt.update_model(buf)
                j = int(rng.integers(0, len(theta)))
                cur = opt.fitting_parameters[j][2]()
                sp = 'log' if type(opt.fitting_priors[j]).__name__.startswith('Log') else 'linear'
                x = cur * 10 ** rng.uniform(0.05, 0.3)
                buf[j] = math.log10(x) if sp == 'log' else x
                opt.update_model(buf)
                mine_extra += 2
                vals = all_values(model, obs)
                for i, nm in enumerate(fitted_now):
                    ctx.close('update-sets-fitted-to-prior-transform', vals[nm], opt.fitting_priors[i].prior(buf[i]), 1e-12,
                              param=nm, variant='same-container-edited-in-place', history=history[-12:])
                ctx.observe('update:same-container-edited-in-place')
            elif theta:
                # (b) the same vector again after a fitted parameter was written directly in between
                opt.update_model(list(theta))
                j = int(rng.integers(0, len(theta)))
                t = opt.fitting_parameters[j]
                t[3](t[2]() * float(rng.uniform(1.05, 1.5)))
                opt.update_model(list(theta))
                mine_extra += 2
                vals = all_values(model, obs)
                for i, nm in enumerate(fitted_now):
                    ctx.close('update-sets-fitted-to-prior-transform', vals[nm], opt.fitting_priors[i].prior(theta[i]), 1e-12,
                              param=nm, variant='same-vector-after-direct-write', history=history[-12:])
                ctx.observe('update:same-vector-after-direct-write')
            mine += ['update_model'] * mine_extra
            # too many / too few values is an error
            mine.append(op)
            try:
                mine.append('update_model')
                opt.update_model(theta + [1.0])
                ctx.check('update-wrong-length-is-an-error', False, n=len(theta))
            except ValueError:
                ctx.check('update-wrong-length-is-an-error', True)
            continue
        mine.append(op)
    # the tapped log must contain every call I made, in order (monitor completeness)
    tapped = [e['op'] for e in _log]
    ctx.check('history-log-complete', tapped == mine, n_tapped=len(tapped), n_mine=len(mine))
    ctx.sig(tuple(h[:2] if len(h) > 1 else h for h in history))
    ctx.sample({'history': [list(map(str, h)) for h in history][:14], 'fit_names': list(opt.fit_names),
                'fit_values': [float(v) for v in opt.fit_values], 'priors': [type(p).__name__ for p in opt.fitting_priors]})


class FrozenRef:
    """The fitted list as of the last compile (update_model works on the compiled list)."""

    def __init__(self, ref, fitted):
        self._ref = ref
        self._fitted = list(fitted)
        self.p = ref.p

    def fitted(self):
        return self._fitted

    def prior_space(self, n):
        return self._ref.prior_space(n)


def wl_unknown(ctx, rng):
    """Naming an unknown parameter is an error for every setter."""
    from taurex.optimizer import Optimizer
    from taurex.core.priors import Uniform
    model, spec = make_model(rng)
    obs = make_obs(rng)
    opt = Optimizer('vmon', observed=obs, model=model)
    bogus = ['nope', 'T_', 'h2o', 'planet_radius ', 'log_T', ''][rng.integers(0, 6)]
    calls = [('enable_fit', (bogus,)), ('disable_fit', (bogus,)), ('set_mode', (bogus, 'log')),
             ('set_boundary', (bogus, [1.0, 2.0])), ('set_factor_boundary', (bogus, (0.5, 2.0))),
             ('set_prior', (bogus, Uniform(bounds=(0, 1)))), ('enable_derived', (bogus,)), ('disable_derived', (bogus,))]
    before = all_values(model, obs)
    for name, args in calls:
        try:
            getattr(opt, name)(*args)
            ctx.check('unknown-parameter-is-an-error', False, op=name, name=bogus)
        except (KeyError, ValueError) as e:
            ctx.check('unknown-parameter-is-an-error', True)
            ctx.license(type(e).__name__)
    ctx.check('unknown-parameter-changes-nothing', all(same(before[k], v) for k, v in all_values(model, obs).items()))
    opt.compile_params()
    ctx.check('unknown-parameter-changes-nothing', bogus not in opt.fit_names and ('log_' + bogus) not in opt.fit_names)
    # a wrong mode string is an error too
    good = [n for n in model.fittingParameters][0]
    try:
        opt.set_mode(good, 'cubic')
        ctx.check('unknown-mode-is-an-error', False)
    except ValueError:
        ctx.check('unknown-mode-is-an-error', True)
    ctx.sig('unknown', bogus, spec['temperature']['kind'], tuple(g['kind'] for g in spec['gases']))
    ctx.sig('unknown2', bogus)


WORKLOADS = {'history': wl_history, 'unknown': wl_unknown}

LEVEL_TEXT = ('Exploration by runtime monitoring of histories: every settings call on the real Optimizer is tapped into an '
              'event log (arguments before, exception after), after each compile/update the reported names, values, '
              'boundaries, priors and derived names plus every model and observation parameter are snapshotted, and a '
              '40-line sequential reference model of the settings, replayed over the same history, decides each '
              'snapshot (current settings only; value in the space of its name and prior; write-back identity; update '
              'touches exactly the fitted parameters; unknown names raise). Histories change settings after the first '
              'compile, mix spaces between mode and user prior, reverse bounds and fit observation parameters.')
LEVEL_NOTE = ('Trusted: the reference settings model in this module; parameters with user priors are not judged on '
              'fit_boundaries (statement silent).')
TECHNIQUE = 'history taps on the Optimizer API + sequential reference model replayed over the recorded history'
