"""Entry point of one simulated MPI rank: python -m vmon.mpi_rank <prop> <seed> <workload> <shard> <index> --out f"""
import pickle
import sys
import warnings


def main(argv):
    prop, seed, workload, shard, index = argv[0], int(argv[1]), argv[2], int(argv[3]), int(argv[4])
    out = argv[argv.index('--out') + 1]
    warnings.filterwarnings('ignore')
    import taurex.log
    taurex.log.disableLogging()
    import importlib
    mod = importlib.import_module('vmon.props.' + prop.lower())
    res = mod.rank_main(seed, workload, shard, index)
    with open(out, 'wb') as fh:
        pickle.dump(res, fh)
    return 0


if __name__ == '__main__':
    sys.exit(main(sys.argv[1:]))
