"""Multi-process MPI simulation for C18: a coordinator thread + R rank subprocesses on the mpi4py stand-in."""
import os
import pickle
import subprocess
import sys
import threading
import time
from multiprocessing.connection import Listener, wait

_counter = [0]


def run_ranks(R, module_args, scratch, timeout=240.0):
    """Start R rank processes `python -m vmon.mpi_rank <module_args...> --out <file>`; returns
    (list of per-rank result dicts or None, coordinator report)."""
    _counter[0] += 1
    tag = '%d-%d' % (os.getpid(), _counter[0])
    sock = os.path.join(scratch, 'vmpi-%s.sock' % tag)
    doubles = os.path.join(os.path.dirname(os.path.abspath(__file__)), 'doubles')
    report = {'rounds': 0, 'ops': {}, 'errors': []}
    listener = None
    th = None
    if R > 1:
        listener = Listener(sock, family='AF_UNIX', backlog=R)
        listener._listener._socket.settimeout(timeout)
    procs, outs = [], []
    for r in range(R):
        env = dict(os.environ)
        env['PYTHONPATH'] = doubles + os.pathsep + env.get('PYTHONPATH', '')
        env.update({'VMPI_RANK': str(r), 'VMPI_SIZE': str(R), 'VMPI_SOCK': sock})
        out = os.path.join(scratch, 'rank-%s-%d.pkl' % (tag, r))
        outs.append(out)
        log = open(out + '.log', 'w')
        procs.append((subprocess.Popen([sys.executable, '-m', 'vmon.mpi_rank'] + list(module_args) + ['--out', out],
                                       env=env, stdout=log, stderr=subprocess.STDOUT), log))

    def coordinate():
        conns = {}
        try:
            while len(conns) < R:
                c = listener.accept()
                msg = c.recv()
                conns[msg[1]] = c
        except Exception as e:          # a rank died before connecting
            report['errors'].append('accept: %r' % (e,))
            for c in conns.values():
                try:
                    c.send(('error', 'not all ranks connected'))
                except Exception:
                    pass
            return
        pending = {}
        alive = dict(conns)
        while alive:
            ready = wait(list(alive.values()), timeout=timeout)
            if not ready:
                report['errors'].append('coordinator timeout with %d ranks waiting' % len(pending))
                break
            for c in ready:
                rank = [k for k, v in alive.items() if v is c][0]
                try:
                    op, seq, rk, payload = c.recv()
                except (EOFError, OSError):
                    del alive[rank]
                    continue
                pending[rank] = (op, seq, payload)
            if pending and len(pending) == len(alive) and len(alive) < R:
                report['errors'].append('ranks %s wait in a collective while others have exited' % sorted(pending))
                for rk in pending:
                    alive[rk].send(('error', 'other ranks exited'))
                pending = {}
            if len(pending) == R:
                ops = {v[0] for v in pending.values()}
                seqs = {v[1] for v in pending.values()}
                if len(ops) != 1 or len(seqs) != 1:
                    report['errors'].append('collective mismatch: %s' % sorted((rk, v[0], v[1]) for rk, v in pending.items()))
                    for rk in pending:
                        alive[rk].send(('error', 'collective mismatch'))
                else:
                    op = ops.pop()
                    report['rounds'] += 1
                    report['ops'][op] = report['ops'].get(op, 0) + 1
                    payloads = [pending[rk][2] for rk in range(R)]
                    for rk in range(R):
                        alive[rk].send(('ok', payloads))
                pending = {}
    if R > 1:
        th = threading.Thread(target=coordinate, daemon=True)
        th.start()
    t0 = time.time()
    results = []
    for (p, log), out in zip(procs, outs):
        try:
            p.wait(timeout=max(1.0, timeout - (time.time() - t0)))
        except subprocess.TimeoutExpired:
            p.kill()
            p.wait()
            report['errors'].append('rank watchdog fired')
        log.close()
        if p.returncode == 0 and os.path.exists(out):
            with open(out, 'rb') as fh:
                results.append(pickle.load(fh))
        else:
            tail = open(out + '.log').read()[-1500:]
            report['errors'].append('rank died rc=%s: %s' % (p.returncode, tail))
            results.append(None)
    if th is not None:
        th.join(timeout=5.0)
        listener.close()
    for out in outs:
        for f in (out, out + '.log'):
            try:
                os.remove(f)
            except OSError:
                pass
    return results, report
