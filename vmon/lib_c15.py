"""Helpers for C15: documentation parser, independent source-tree scan, input-file generator.

Nothing here imports taurex at module level: the documentation is parsed as text, the source tree is
scanned with ``ast`` (so a class is found even when its module cannot be imported), and the input files are
written as plain text.
"""
import ast
import importlib.util
import os
import re

# section of the input file -> (selector field, root class names of the section in the source tree)
SECTIONS = {
    'Temperature': ('profile_type', ('TemperatureProfile',)),
    'Pressure': ('profile_type', ('PressureProfile',)),
    'Chemistry': ('chemistry_type', ('Chemistry',)),
    'Gas': ('gas_type', ('Gas',)),
    'Planet': ('planet_type', ('BasePlanet',)),
    'Star': ('star_type', ('Star',)),
    'Model': ('model_type', ('ForwardModel',)),
    'Contribution': (None, ('Contribution',)),
    'Optimizer': ('optimizer', ('Optimizer',)),
    'Instrument': ('instrument', ('Instrument',)),
    'Observation': ('observation', ('BaseSpectrum',)),
    'Prior': (None, ('Prior',)),
}
MIXIN_ROOT = {'Temperature': 'TemperatureMixin', 'Pressure': 'PressureMixin', 'Chemistry': 'ChemistryMixin',
              'Gas': 'GasMixin', 'Planet': 'PlanetMixin', 'Star': 'StarMixin', 'Model': 'ForwardModelMixin',
              'Contribution': 'ContributionMixin', 'Optimizer': 'OptimizerMixin', 'Instrument': 'InstrumentMixin',
              'Observation': 'ObservationMixin'}
DOC_FILES = {
    'temperature.rst': ['Temperature'], 'pressure.rst': ['Pressure'], 'chemistry.rst': ['Chemistry', 'Gas'],
    'planet.rst': ['Planet'], 'star.rst': ['Star'], 'models.rst': ['Model', 'Contribution'],
    'optimizer.rst': ['Optimizer'], 'instrument.rst': ['Instrument'], 'observation.rst': ['Observation'],
    'fitting.rst': ['Prior'], 'mixins.rst': ['Chemistry', 'Temperature'], 'inputfile.rst': ['Temperature'],
    'custom.rst': ['Temperature', 'Pressure', 'Planet', 'Star', 'Chemistry', 'Gas', 'Model'],
}
FIELD_SECTION = {'chemistry_type': 'Chemistry', 'gas_type': 'Gas', 'planet_type': 'Planet', 'star_type': 'Star',
                 'model_type': 'Model', 'optimizer': 'Optimizer', 'instrument': 'Instrument'}


# ------------------------------------------------------------- documentation
def parse_docs(docdir):
    """-> dict(selectors=[(section, keyword, file, line, how)], keys={(section, selector-or-None): [key,...]},
              contributions=[(header, file, line)], priors=[name])."""
    selectors, keys, contribs, priors = [], {}, [], []
    for fn, sections in DOC_FILES.items():
        path = os.path.join(docdir, fn)
        if not os.path.exists(path):
            continue
        lines = open(path, encoding='utf-8').read().split('\n')
        list_field = None          # field named just before a bullet list
        current = []               # [(section, selector)] the following Keywords table belongs to
        in_keywords = False
        last_sel_line = -10
        primary = sections[0]
        example_header = None      # the [Header] an indented example line stands under
        for i, ln in enumerate(lines):
            m = re.match(r'^\s{4,}\[(\w+)\]\s*$', ln)
            if m:
                example_header = m.group(1)
            elif ln.strip() and not ln.startswith(' '):
                example_header = None

            # -- which section does a 'profile_type' on this page mean
            def sec_of(field, in_example=False):
                if field == 'profile_type':
                    if in_example and example_header in ('Temperature', 'Pressure'):
                        return example_header
                    return primary if primary in ('Temperature', 'Pressure') else None
                return FIELD_SECTION.get(field)
            # -- headings reset the keyword table state
            nxt = lines[i + 1] if i + 1 < len(lines) else ''
            is_heading = bool(ln.strip()) and bool(re.fullmatch(r'[=\-~^]{3,}', nxt.strip() or 'x'))
            if is_heading:
                title = ln.strip()
                in_keywords = title.lower() == 'keywords'
                if not in_keywords and title.lower() not in ('fitting parameters',) and not title.startswith('``'):
                    pass
            # -- inline ``field = kw`` / ``field=kw`` (also several on one line)
            for m in re.finditer(r'``\s*(\w+)\s*=\s*([\w+\-]+)\s*``', ln):
                field, kw = m.group(1), m.group(2)
                sec = sec_of(field)
                if sec is None:
                    continue
                selectors.append((sec, kw, fn, i + 1, 'inline'))
                if ln.strip().startswith('``') and ln.strip().endswith('``'):
                    # a selector header line (several consecutive lines = aliases of one component)
                    if i - last_sel_line > 1:
                        current = []
                    current.append((sec, kw))
                    last_sel_line = i
            # -- literal example blocks:  field = kw
            m = re.match(r'^\s{4,}(\w+)\s*=\s*"?([\w+\-]+)"?\s*(#.*)?$', ln)
            if m and sec_of(m.group(1), True):
                selectors.append((sec_of(m.group(1), True), m.group(2), fn, i + 1, 'example'))
            # -- bullet lists following a sentence that names the field
            for m in re.finditer(r'``(\w+)``', ln):
                if m.group(1) in ('profile_type', 'chemistry_type', 'gas_type', 'star_type', 'model_type', 'planet_type',
                                  'optimizer', 'instrument') and not re.search(r'``\s*\w+\s*=', ln):
                    list_field = m.group(1)
            m = re.match(r'^\s{4}- ``([\w+\-]+)``\s*$', ln)
            if m and list_field and sec_of(list_field):
                selectors.append((sec_of(list_field), m.group(1), fn, i + 1, 'list'))
            elif ln.strip() and not ln.startswith(' ') and not re.search(r'``\w+``', ln) and not is_heading:
                pass
            # -- contribution headers
            if primary == 'Model':
                hs = re.findall(r'``\[\[(\w+)\]\]``', ln)
                if hs and ln.strip().startswith('``[['):
                    current = [('Contribution', h) for h in hs]
                    for h in hs:
                        contribs.append((h, fn, i + 1))
            # -- keyword tables
            if in_keywords:
                m = re.match(r'^\|\s*``([\w\-]+)``\s*\|', ln)
                if m:
                    owners = current or [(primary, None)]
                    for o in owners:
                        keys.setdefault(o, [])
                        if m.group(1) not in keys[o]:
                            keys[o].append(m.group(1))
            if fn == 'fitting.rst':
                for m in re.finditer(r'"(\w+)\(', ln):
                    if m.group(1) not in priors:
                        priors.append(m.group(1))
        # pages whose section has a single component: the page's table belongs to every selector named on it
        if primary in ('Pressure', 'Planet') and (primary, None) in keys:
            for sec, kw, f, _, how in selectors:
                if f == fn and sec == primary and kw != 'custom':
                    keys.setdefault((sec, kw), list(keys[(primary, None)]))
    # ``ngauss`` is documented in the running text of models.rst
    txt = open(os.path.join(docdir, 'models.rst'), encoding='utf-8').read() if os.path.exists(
        os.path.join(docdir, 'models.rst')) else ''
    if '``ngauss``' in txt:
        for kw in ('emission', 'directimage'):
            keys.setdefault(('Model', kw), []).append('ngauss')
    return {'selectors': selectors, 'keys': keys, 'contributions': contribs, 'priors': priors}


# -------------------------------------------------------------- source scan
def scan_source(pkgdir):
    """ast scan of every class in the package: {class name: dict(file, bases, keywords, init_args, mixin_args,
    top_imports)} -- independent of ClassFactory and of importability."""
    classes = {}
    for root, _, files in os.walk(pkgdir):
        for f in files:
            if not f.endswith('.py'):
                continue
            path = os.path.join(root, f)
            try:
                tree = ast.parse(open(path, encoding='utf-8').read())
            except SyntaxError:
                continue
            imports = []
            for node in tree.body:
                if isinstance(node, ast.Import):
                    imports += [a.name.split('.')[0] for a in node.names]
                elif isinstance(node, ast.ImportFrom) and node.level == 0 and node.module:
                    imports.append(node.module.split('.')[0])
            rel_imports = [node.module for node in tree.body
                           if isinstance(node, ast.ImportFrom) and node.level > 0 and node.module]
            for node in ast.walk(tree):
                if not isinstance(node, ast.ClassDef):
                    continue
                info = {'file': path, 'bases': [_name(b) for b in node.bases], 'keywords': None, 'init_args': None,
                        'mixin_args': None, 'top_imports': imports, 'rel_imports': rel_imports}
                for item in node.body:
                    if isinstance(item, ast.FunctionDef) and item.name == 'input_keywords':
                        for sub in ast.walk(item):
                            if isinstance(sub, ast.Return) and isinstance(sub.value, (ast.List, ast.Tuple)):
                                info['keywords'] = [e.value for e in sub.value.elts if isinstance(e, ast.Constant)]
                    if isinstance(item, ast.FunctionDef) and item.name in ('__init__', '__init_mixin__'):
                        a = item.args
                        names = [x.arg for x in a.args][1:]
                        nd = len(a.defaults)
                        d = {}
                        for nm, dv in zip(names[len(names) - nd:] if nd else [], a.defaults):
                            try:
                                d[nm] = ast.literal_eval(dv)
                            except Exception:
                                d[nm] = '<expr>'
                        info['init_args' if item.name == '__init__' else 'mixin_args'] = \
                            {'all': names, 'defaults': d}
                classes.setdefault(node.name, info)
    return classes


def _name(b):
    if isinstance(b, ast.Name):
        return b.id
    if isinstance(b, ast.Attribute):
        return b.attr
    return '?'


def ancestors(classes, name, seen=None):
    seen = set() if seen is None else seen
    for b in classes.get(name, {}).get('bases', []):
        if b not in seen:
            seen.add(b)
            ancestors(classes, b, seen)
    return seen


def effective_init(classes, name, attr='init_args'):
    """Constructor arguments/defaults of a class as inherited (first definition along the bases, depth first)."""
    seen = set()

    def walk(n):
        if n in seen or n not in classes:
            return None
        seen.add(n)
        if classes[n].get(attr):
            return classes[n][attr]
        for b in classes[n]['bases']:
            r = walk(b)
            if r:
                return r
        return None
    return walk(name) or {'all': [], 'defaults': {}}


def classes_with_keyword(classes, section, keyword, mixin=False):
    """Source-tree classes of a section (or its mixin family) that carry the selector keyword."""
    roots = (MIXIN_ROOT[section],) if mixin else SECTIONS[section][1]
    out = []
    for nm, info in classes.items():
        if info['keywords'] and keyword in info['keywords']:
            anc = ancestors(classes, nm)
            if any(r in anc for r in roots):
                out.append(nm)
    return sorted(out)


def missing_external_imports(classes, name, pkgdir):
    """External top-level packages the class's module (or the package-internal modules it imports at top level)
    needs and this environment does not have."""
    missing = set()
    todo, seen = [classes[name]['file']], set()
    while todo:
        path = todo.pop()
        if path in seen:
            continue
        seen.add(path)
        try:
            tree = ast.parse(open(path, encoding='utf-8').read())
        except (OSError, SyntaxError):
            continue
        for node in tree.body:
            mods = []
            if isinstance(node, ast.Import):
                mods = [a.name for a in node.names]
            elif isinstance(node, ast.ImportFrom):
                if node.level > 0:
                    if node.module:
                        cand = os.path.join(os.path.dirname(path), *node.module.split('.')) + '.py'
                        if os.path.exists(cand):
                            todo.append(cand)
                    continue
                mods = [node.module or '']
            for m in mods:
                top = m.split('.')[0]
                if top in ('taurex', ''):
                    continue
                try:
                    if importlib.util.find_spec(top) is None:
                        missing.add(top)
                except (ImportError, ValueError):
                    missing.add(top)
    return sorted(missing)


# ------------------------------------------------------------- input files
TRUE_WORDS = ['True', 'true', 'TRUE', 'yes', 'Yes', 'yeah', 'yup', 'certainly', 'uh-huh']
FALSE_WORDS = ['False', 'false', 'FALSE', 'no', 'No', 'nope', 'no-way', 'hell-no']


def fmt_number(rng, v, integer=False):
    """A documented way of writing the number v -> text; float(text) == v exactly."""
    if integer or (float(v) == int(v) and abs(v) < 1e15 and rng.random() < 0.5):
        return str(int(v))
    k = rng.integers(0, 3)
    if k == 0:
        return repr(float(v))
    if k == 1:
        return '%.17e' % float(v)
    return '%.17g' % float(v)


def rnd_case(rng, word):
    """Selector values are case-insensitive (documented examples write 'Simple', 'blackbody')."""
    k = rng.integers(0, 4)
    if k == 0:
        return word.upper()
    if k == 1:
        return word.capitalize()
    return word


class Entry:
    """One key of a section as written and as it has to arrive."""

    def __init__(self, key, text, expect, kind):
        self.key, self.text, self.expect, self.kind = key, text, expect, kind


def e_float(rng, key, v):
    return Entry(key, fmt_number(rng, v), float(v), 'number')


def e_int(rng, key, v):
    return Entry(key, fmt_number(rng, v, integer=True), int(v), 'number')


def e_bool(rng, key, v):
    words = TRUE_WORDS if v else FALSE_WORDS
    return Entry(key, words[rng.integers(0, len(words))], bool(v), 'bool')


def e_floatlist(rng, key, vals):
    vals = [float(v) for v in vals]
    sep = [',', ', ', ' , '][rng.integers(0, 3)]
    text = sep.join(fmt_number(rng, v) for v in vals)
    if len(vals) == 1 or rng.random() < 0.2:
        text += ','                       # documented: trailing comma; needed for a one-element list
    return Entry(key, text, vals, 'floatlist')


def e_strlist(rng, key, vals, force_list=True):
    text = [',', ', '][rng.integers(0, 2)].join(vals)
    if len(vals) == 1 and force_list:
        text += ','
    return Entry(key, text, list(vals) if (len(vals) > 1 or force_list) else vals[0], 'strlist')


def e_str(rng, key, v):
    q = ['', '"', "'"][rng.integers(0, 3)]
    if any(c in v for c in ',#') and not q:
        q = '"'
    return Entry(key, q + v + q, v, 'str')


class Section:
    def __init__(self, name, field=None, selector_text=None, klass=None, entries=None, subsections=None):
        self.name, self.field, self.selector_text = name, field, selector_text
        self.klass = klass                      # expected class name(s): str or tuple for composite
        self.entries = entries or []
        self.subsections = subsections or []

    def render(self, rng, level=1):
        ind = '    ' * (level - 1)
        out = ['%s%s%s%s' % (ind, '[' * level, self.name, ']' * level)]
        lines = []
        if self.field is not None:
            lines.append((self.field, self.selector_text))
        lines += [(e.key, e.text) for e in self.entries]
        order = list(range(len(lines)))
        if len(order) > 1 and rng.random() < 0.5:
            order = [int(i) for i in rng.permutation(len(lines))]
        for i in order:
            k, t = lines[i]
            eq = [' = ', '=', ' =', '= '][rng.integers(0, 4)]
            out.append('%s%s%s%s' % (ind, k, eq, t))
            if rng.random() < 0.05:
                out.append('%s# a comment' % ind)
        for s in self.subsections:
            out.append(s.render(rng, level + 1))
        return '\n'.join(out) + '\n'


def render_file(rng, sections):
    return '\n'.join(s.render(rng) for s in sections)


# ------------------------------------------------- world spec -> input file
def write_world_files(spec, scratch, tag):
    """Opacity pickles (+ CIA .db pickles) of a vmon world; returns (xsec_dir, cia_dir or None)."""
    import pickle
    import numpy as np
    from vmon import world
    xdir = os.path.join(scratch, 'xsec_%s' % tag)
    os.makedirs(xdir, exist_ok=True)
    for m, t in spec['tables'].items():
        world.write_pickle_xsec(os.path.join(xdir, m + '.pickle'), t['wn'], t['T'], t['P'], t['xsec'])
    pairs = []
    for c in spec['contributions']:
        if not isinstance(c, str) and c['name'] == 'CIA':
            pairs = c['cia_pairs']
    cdir = None
    if pairs:
        cdir = os.path.join(scratch, 'cia_%s' % tag)
        os.makedirs(cdir, exist_ok=True)
        rng = np.random.default_rng(spec['cia_seed'])
        wn = next(iter(spec['tables'].values()))['wn']
        for p in pairs:
            T = np.array([50.0, 500.0, 1500.0, 4000.0])
            x = 10 ** rng.uniform(-48, -44, (len(T), len(wn)))
            with open(os.path.join(cdir, p + '.db'), 'wb') as fh:
                pickle.dump({'wno': np.asarray(wn), 't': T, 'xsecarr': x}, fh)
    return xdir, cdir


def alias(rng, classes, klass, registered_lower=True):
    kws = [k for k in (classes[klass]['keywords'] or []) if k == k.lower()]
    return kws[rng.integers(0, len(kws))]


def sections_from_spec(rng, spec, classes, xdir, cdir, scratch, tag):
    """Render a lib_c16 model spec as input-file sections (every constructor value written explicitly)."""
    import numpy as np
    S = []
    g = Section('Global', entries=[e_str(rng, 'xsec_path', xdir),
                                   e_str(rng, 'xsec_interpolation', spec.get('interpolation', 'linear'))])
    if cdir:
        g.entries.append(e_str(rng, 'cia_path', cdir))
    S.append(g)
    # chemistry
    subs = []
    for gs in spec['gases']:
        k = gs['kind']
        if k == 'constant':
            kl, ent = 'ConstantGas', [e_float(rng, 'mix_ratio', gs['mix'])]
        elif k == 'twolayer':
            kl, ent = 'TwoLayerGas', [e_float(rng, 'mix_ratio_surface', gs['surface']), e_float(rng, 'mix_ratio_top', gs['top']),
                                      e_float(rng, 'mix_ratio_P', gs['P']), e_int(rng, 'mix_ratio_smoothing', gs['smoothing'])]
        elif k == 'twopoint':
            kl, ent = 'TwoPointGas', [e_float(rng, 'mix_ratio_surface', gs['surface']), e_float(rng, 'mix_ratio_top', gs['top'])]
        elif k == 'power':
            kl = 'PowerGas'
            ent = [e_str(rng, 'profile_type', gs['profile_type'])]
            if not gs['defaults']:
                ent += [e_float(rng, 'mix_ratio_surface', gs['surface']), e_float(rng, 'alpha', gs['alpha']),
                        e_float(rng, 'beta', gs['beta']), e_float(rng, 'gamma', gs['gamma'])]
        else:
            kl, ent = 'ArrayGas', [e_floatlist(rng, 'mix_ratio_array', gs['mix'])]
        subs.append(Section(gs['mol'], 'gas_type', rnd_case(rng, alias(rng, classes, kl)), kl, ent))
    if spec['chemistry'] == 'taurex':
        ent = [e_strlist(rng, 'fill_gases', spec['fill_gases'], force_list=rng.random() < 0.5)]
        if len(spec['fill_ratio']) == 1 and rng.random() < 0.6:
            ent.append(e_float(rng, 'ratio', spec['fill_ratio'][0]))
        elif spec['fill_ratio']:
            ent.append(e_floatlist(rng, 'ratio', spec['fill_ratio']))
        S.append(Section('Chemistry', 'chemistry_type', rnd_case(rng, alias(rng, classes, 'TaurexChemistry')),
                         'TaurexChemistry', ent, subs))
    else:
        raise ValueError('file chemistry is rendered by the component workload only')
    # temperature
    t = spec['temperature']
    if t['kind'] == 'isothermal':
        kl, ent = 'Isothermal', [e_float(rng, 'T', t['T'])]
    elif t['kind'] == 'guillot':
        kl, ent = 'Guillot2010', [e_float(rng, k, t[k]) for k in ('T_irr', 'kappa_irr', 'kappa_v1', 'kappa_v2', 'alpha', 'T_int')]
    elif t['kind'] == 'npoint':
        kl = 'NPoint'
        ent = [e_float(rng, 'T_surface', t['T_surface']), e_float(rng, 'T_top', t['T_top']),
               e_int(rng, 'smoothing_window', t['smoothing_window']), e_float(rng, 'limit_slope', t['limit_slope'])]
        if t['temperature_points']:
            ent += [e_floatlist(rng, 'temperature_points', t['temperature_points']),
                    e_floatlist(rng, 'pressure_points', t['pressure_points'])]
        for k in ('P_surface', 'P_top'):
            if t[k] is not None:
                ent.append(e_float(rng, k, t[k]))
    elif t['kind'] == 'rodgers':
        kl, ent = 'Rodgers2000', [e_floatlist(rng, 'temperature_layers', t['temperature_layers']),
                                  e_float(rng, 'correlation_length', t['correlation_length'])]
    else:
        raise ValueError('temperature kind %s cannot be written in an input file' % t['kind'])
    S.append(Section('Temperature', 'profile_type', rnd_case(rng, alias(rng, classes, kl)), kl, ent))
    # pressure
    S.append(Section('Pressure', 'profile_type', rnd_case(rng, alias(rng, classes, 'SimplePressureProfile')),
                     'SimplePressureProfile',
                     [e_int(rng, 'nlayers', spec['nlayers']), e_float(rng, 'atm_min_pressure', spec['pmin']),
                      e_float(rng, 'atm_max_pressure', spec['pmax'])]))
    pk = dict(spec['planet_kw'])
    ent = [e_float(rng, 'planet_mass', spec['planet_mass']), e_float(rng, 'planet_radius', spec['planet_radius'])]
    ent += [e_float(rng, k, v) for k, v in pk.items()]
    S.append(Section('Planet', 'planet_type', rnd_case(rng, 'simple'), 'Planet', ent))
    ent = [e_float(rng, 'temperature', spec['star_T']), e_float(rng, 'radius', spec['star_radius']),
           e_float(rng, 'distance', spec['star_distance'])] + [e_float(rng, k, v) for k, v in spec['star_kw'].items()]
    S.append(Section('Star', 'star_type', rnd_case(rng, 'blackbody'), 'BlackbodyStar', ent))
    # model + contributions
    mk = {'transmission': 'TransmissionModel', 'emission': 'EmissionModel', 'directimage': 'DirectImageModel'}[spec['model']]
    ent = [e_bool(rng, 'new_path_method', spec['new_path_method'])] if spec['model'] == 'transmission' else \
        [e_int(rng, 'ngauss', spec['ngauss'])]
    subs = []
    cname = {'Absorption': 'AbsorptionContribution', 'CIA': 'CIAContribution', 'Rayleigh': 'RayleighContribution',
             'SimpleClouds': 'SimpleCloudsContribution', 'FlatMie': 'FlatMieContribution', 'LeeMie': 'LeeMieContribution',
             'HydrogenIon': 'HydrogenIon'}
    for c in spec['contributions']:
        name = c if isinstance(c, str) else c['name']
        kw = {} if isinstance(c, str) else {k: v for k, v in c.items() if k != 'name'}
        kl = cname[name]
        headers = classes[kl]['keywords']
        header = headers[rng.integers(0, len(headers))]          # contribution headers are case-sensitive
        ce = []
        for k, v in kw.items():
            ce.append(e_strlist(rng, k, v) if k == 'cia_pairs' else e_float(rng, k, v))
        subs.append(Section(header, None, None, kl, ce))
    S.append(Section('Model', 'model_type', rnd_case(rng, alias(rng, classes, mk)), mk, ent, subs))
    return S
